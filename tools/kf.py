#!/usr/bin/python3
"""Maintain known_findings.json by hand:  tools/kf.py add <replay-file> "<what fails>"  |  tools/kf.py rm <property> <signature>
   tools/kf.py fixed <property> <commit> "<what failed>" [signature-to-remove]  |  tools/kf.py list"""
import json, sys
P = 'known_findings.json'
d = json.load(open(P))
cmd = sys.argv[1]
if cmd == 'add':
    r = json.load(open(sys.argv[2]))
    d['findings'] = [f for f in d['findings'] if not (f['property'] == r['property'] and f['signature'] == r['signature'])]
    d['findings'].append({'property': r['property'], 'signature': r['signature'], 'what': sys.argv[3], 'witness': r['case']})
elif cmd == 'rm':
    n = len(d['findings'])
    d['findings'] = [f for f in d['findings'] if not (f['property'] == sys.argv[2] and f['signature'] == sys.argv[3])]
    print('removed', n - len(d['findings']))
elif cmd == 'fixed':
    d['fixed'].append('fixed: property=%s %s %s' % (sys.argv[2], sys.argv[3], sys.argv[4]))
    if len(sys.argv) > 5:
        d['findings'] = [f for f in d['findings'] if not (f['property'] == sys.argv[2] and f['signature'] == sys.argv[5])]
elif cmd == 'merge':
    # tools/kf.py merge C17 C18 ... : fold known/<P>.json into known_findings.json and delete the per-property file
    import os
    for prop in sys.argv[2:]:
        fp = 'known/%s.json' % prop
        if not os.path.exists(fp):
            continue
        for f in json.load(open(fp)).get('findings', []):
            d['findings'] = [g for g in d['findings'] if not (g['property'] == f['property'] and g['signature'] == f['signature'])]
            d['findings'].append(f)
        os.unlink(fp)
elif cmd == 'list':
    for f in d['findings']:
        print(f['property'], '|', f['signature'][:110].replace('\n', ' '), '|', f['what'][:80])
    for f in d['fixed']:
        print(f)
d['findings'].sort(key=lambda f: (f['property'], f['signature']))
json.dump(d, open(P, 'w'), indent=1)
