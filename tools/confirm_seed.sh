#!/bin/bash
# tools/confirm_seed.sh <Cnn-k> : confirm a sub-agent's seeded change in its scratch worktree /tmp/seed-<Cnn-k>:
#  the repository's suite passes with it, its demonstration fails with it and passes without it.  Prints a summary;
#  on success copies patch.diff, the demonstration and meta.json to /verif/seeded/<Cnn-k>/.  Does not remove the worktree.
set -u
ID=$1; WT=/tmp/seed-$ID; OUT=/tmp/seed-$ID-out
# second argument "wt": the demonstration script takes the worktree path instead of the path of the rsass binary
if [ "${2:-}" = "wt" ]; then ARG="$WT"; else ARG="$WT/target/debug/rsass"; fi
cd "$WT" || exit 2
git diff > /tmp/seed-$ID.actual.diff
echo "== diffstat"; git diff --stat | tail -3
echo "== suite with the change"
cargo nextest run --workspace --no-fail-fast --offline --test-threads ${T:-6} 2>&1 | grep -E "^\s+(FAIL|SIGABRT|SIGSEGV|Summary) |^error" | sort | uniq | tail -8
cargo build --offline -p rsass-cli 2>&1 | tail -1
if [ -f "$OUT/demo.sh" ]; then
  ( cd "$OUT" && bash ./demo.sh "$ARG" >/tmp/seed-$ID.demo1.log 2>&1 ); echo "== demo with change: exit $? (want 1)"
  git apply -R /tmp/seed-$ID.actual.diff; cargo build --offline -p rsass-cli 2>&1 | tail -1   # (git stash is shared between worktrees: not used)
  ( cd "$OUT" && bash ./demo.sh "$ARG" >/tmp/seed-$ID.demo0.log 2>&1 ); echo "== demo without change: exit $? (want 0)"
  git apply /tmp/seed-$ID.actual.diff
else
  echo "== no demo.sh; files:"; ls "$OUT"
fi
mkdir -p /verif/seeded/$ID && cp -r "$OUT"/. /verif/seeded/$ID/ && cp /tmp/seed-$ID.actual.diff /verif/seeded/$ID/patch.diff
