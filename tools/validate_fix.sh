#!/bin/bash
# tools/validate_fix.sh <patch-file> : apply a candidate repair to a scratch worktree of /repo HEAD (outside /repo and
# /verif), run the repository's own suite there unedited, print the summary, remove the worktree (build output is kept in
# /tmp/fixwt-target for the next validation and removed with tools/validate_fix.sh --clean).
set -u
if [ "${1:-}" = "--clean" ]; then rm -rf /tmp/fixwt-target; exit 0; fi
WT=/tmp/fixwt.$$
git -C /repo worktree add -q --detach "$WT" HEAD || exit 2
[ ! -s "$1" ] || ( cd "$WT" && git apply "$1" ) || { git -C /repo worktree remove --force "$WT"; echo "PATCH DOES NOT APPLY"; exit 2; }
( cd "$WT" && CARGO_TARGET_DIR=/tmp/fixwt-target cargo nextest run --workspace --no-fail-fast --offline --test-threads ${T:-8} 2>&1 | grep -E "^\s+(FAIL|SIGABRT|SIGSEGV|Summary) |^error" | sort | uniq | tail -40 )
git -C /repo worktree remove --force "$WT"
