#!/bin/bash
# tools/try_patch.sh <patch.diff> <Cnn> [Cnn...] : apply a change to a scratch worktree of /repo HEAD (never to /repo itself),
# run the quick checks of the given properties against it (VERIF_REPO), print their verdict lines, and remove the
# worktree together with its build output.  TIER=thorough for the thorough tier.
set -u
PATCH=$(readlink -f "$1"); shift
WT=/tmp/try.$$
cd /verif || exit 2
git -C /repo worktree add -q --detach "$WT" HEAD || exit 2
if ! ( cd "$WT" && git apply "$PATCH" ); then echo "PATCH DOES NOT APPLY"; git -C /repo worktree remove --force "$WT"; exit 2; fi
for P in "$@"; do
  echo "== $P against $(basename "$PATCH")"
  VERIF_REPO="$WT" ./check "$P" "${TIER:-quick}" 2>&1 | grep -E "^(VIOLATION|HELD|VIOLATED|INCONCLUSIVE)" | cut -c1-260 | head -${LINES_MAX:-6}
done
rm -rf $(/usr/bin/python3 -c "from monitors.lib import build as b; print(b.target_dir('$WT'), b.harness_dir('$WT'), b.target_dir('$WT')+'-cli')")
git -C /repo worktree remove --force "$WT"
