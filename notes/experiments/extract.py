#!/usr/bin/python3
# scratch: extract scss inputs from rsass/tests/spec/**/*.rs  (runner().ok("...") / .err("..."))
import os, re, sys, json
root = sys.argv[1]
def rust_unescape(lit):
    out = []; i = 0; n = len(lit)
    while i < n:
        c = lit[i]
        if c != '\\': out.append(c); i += 1; continue
        i += 1; c = lit[i]
        if c == 'n': out.append('\n'); i += 1
        elif c == 't': out.append('\t'); i += 1
        elif c == 'r': out.append('\r'); i += 1
        elif c == '0': out.append('\0'); i += 1
        elif c in '\\"\'': out.append(c); i += 1
        elif c == 'u':
            j = lit.index('}', i); out.append(chr(int(lit[i+2:j], 16))); i = j + 1
        elif c == 'x': out.append(chr(int(lit[i+1:i+3], 16))); i += 3
        elif c == '\n':
            i += 1
            while i < n and lit[i] in ' \t\n\r': i += 1
        else: raise ValueError('esc ' + c)
    return ''.join(out)
pat = re.compile(r'\.(ok|err)\(\s*"((?:[^"\\]|\\.|\\\n)*)"', re.S)
n = 0
with open(sys.argv[2], 'w') as f:
    for d, _, fs in sorted(os.walk(root)):
        for fn in sorted(fs):
            if not fn.endswith('.rs'): continue
            p = os.path.join(d, fn); s = open(p, encoding='utf-8').read()
            has_mock = 'mock_file' in s
            for m in pat.finditer(s):
                try: src = rust_unescape(m.group(2))
                except Exception as e: continue
                f.write(json.dumps({'file': os.path.relpath(p, root), 'kind': m.group(1), 'mock': has_mock, 'src': src}) + '\n'); n += 1
print(n)
