import json, random, sys, re
sys.path.insert(0, '/root/scratch/x')
from pool import run_jobs
rnd = random.Random(int(sys.argv[1]) if len(sys.argv) > 1 else 1)
TYPES = ['a', 'b', 'div', '*']; CLS = ['.c', '.d', '.e']; IDS = ['#i', '#j']; ATTR = ['[x]', '[x=y]', '[x="y z"]', '[x^=y]', '[x=y i]']
PC = [':hover', ':focus', ':first-child', ':nth-child(2n+1)', ':nth-of-type(3)']; PE = ['::before', '::after', ':before']
def compound(depth=0):
    parts = []
    if rnd.random() < .6: parts.append(rnd.choice(TYPES))
    for _ in range(rnd.choice([0, 0, 1, 1, 2])): parts.append(rnd.choice(CLS))
    if rnd.random() < .2: parts.append(rnd.choice(IDS))
    if rnd.random() < .2: parts.append(rnd.choice(ATTR))
    if rnd.random() < .25: parts.append(rnd.choice(PC))
    if depth < 1 and rnd.random() < .2: parts.append(':%s(%s)' % (rnd.choice(['not', 'is', 'where', 'matches', 'has']), sellist(depth + 1, 2)))
    if rnd.random() < .1: parts.append(rnd.choice(PE))
    if not parts: parts.append(rnd.choice(CLS))
    if parts[0] == '*' and len(parts) > 1 and rnd.random() < .5: parts = parts[1:]
    return ''.join(parts)
def complex_(depth=0):
    n = rnd.choice([1, 1, 2, 2, 3]); s = compound(depth)
    for _ in range(n - 1): s += rnd.choice([' ', ' ', ' > ', ' + ', ' ~ ']) + compound(depth)
    return s
def sellist(depth=0, mx=3):
    return ', '.join(complex_(depth) for _ in range(rnd.randint(1, mx)))
def specialize(s):
    # add a simple selector to the last compound, or an ancestor in front
    k = rnd.random()
    if k < .4: return s + rnd.choice(CLS + [':hover', '[x]'])
    if k < .7: return compound() + ' ' + s
    return compound() + ' > ' + s
N = int(sys.argv[2]) if len(sys.argv) > 2 else 3000
cases = []
for i in range(N):
    a = sellist(); m = rnd.choice(a.split(', ')) if ':' not in a or True else a
    # pick a member safely: regenerate list as explicit members
    members = [complex_() for _ in range(rnd.randint(1, 3))]; a = ', '.join(members); m = rnd.choice(members)
    b = specialize(m) if '::' not in m and ':before' not in m else m
    c = specialize(b) if '::' not in b and ':before' not in b else b
    cases.append((a, m, b, c))
jobs = []
for i, (a, m, b, c) in enumerate(cases):
    q = lambda s: '"' + s.replace('"', '\\"') + '"'
    src = '@use "sass:selector" as s; x{refl: s.is-superselector(%s,%s); mem: s.is-superselector(%s,%s); spec: s.is-superselector(%s,%s); ab: s.is-superselector(%s,%s); bc: s.is-superselector(%s,%s); ac: s.is-superselector(%s,%s); rt: s.parse(%s); rt2: s.parse(#{s.parse(%s)})}' % (q(a), q(a), q(a), q(m), q(m), q(b), q(a), q(b), q(b), q(c), q(a), q(c), q(a), q(a))
    jobs.append({'id': str(i), 'src': src})
res = run_jobs(jobs)
from collections import Counter
cnt = Counter(); ex = {}
for i, (a, m, b, c) in enumerate(cases):
    r = res[str(i)]
    if r['status'] != 'ok': cnt['status-' + r['status']] += 1; ex.setdefault('status-' + r['status'], (a, r['err'][:100])); continue
    d = dict(re.findall(r'^\s+(\w+): (.*);$', r['out'], re.M))
    def bad(k, why):
        cnt[k] += 1
        if k not in ex or len(str(why)) < len(str(ex[k])): ex[k] = why
    if d['refl'] != 'true': bad('not-reflexive', a)
    if d['mem'] != 'true': bad('list-not-super-of-member', (a, m))
    if d['spec'] != 'true': bad('not-super-of-specialization', (m, b))
    if d['ab'] == 'true' and d['bc'] == 'true' and d['ac'] != 'true': bad('not-transitive', (a, b, c))
    if d['rt'] != d['rt2']: bad('parse-print-not-idempotent', (a, d['rt'], d['rt2']))
    cnt['n'] += 1
print(cnt)
for k, v in ex.items(): print(k, '::', json.dumps(v)[:260])
