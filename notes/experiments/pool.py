# scratch driver pool
import json, subprocess, threading, os, queue
BIN = os.environ.get('DRV', '/root/scratch/mi/target/release/mi')
def run_jobs(jobs, nproc=16, timeout=20):
    """jobs: list of dicts with 'id'. returns dict id -> result"""
    results = {}
    shards = [jobs[i::nproc] for i in range(nproc)]
    def work(shard):
        i = 0
        while i < len(shard):
            p = subprocess.Popen(['bash', '-c', 'ulimit -s 8192; exec ' + BIN], stdin=subprocess.PIPE, stdout=subprocess.PIPE, stderr=subprocess.DEVNULL, text=True, cwd='/root/scratch/x/cwd')
            def feed(p=p, rest=shard[i:]):
                try:
                    for j in rest: p.stdin.write(json.dumps(j) + '\n')
                    p.stdin.close()
                except Exception: pass
            threading.Thread(target=feed, daemon=True).start()
            cur = None
            timer = None
            for line in p.stdout:
                if line.startswith('B '):
                    cur = json.loads(line[2:]); 
                    if timer: timer.cancel()
                    timer = threading.Timer(timeout, p.kill); timer.start()
                elif line.startswith('R '):
                    r = json.loads(line[2:]); results[r['id']] = r; i += 1; cur = None
            if timer: timer.cancel()
            rc = p.wait()
            if cur is not None:
                results[cur] = {'id': cur, 'status': 'crash', 'err': 'rc=%s' % rc}; i += 1
            elif rc != 0 and i < len(shard):
                results[shard[i]['id']] = {'id': shard[i]['id'], 'status': 'crash', 'err': 'rc=%s (no begin)' % rc}; i += 1
    ts = [threading.Thread(target=work, args=(s,)) for s in shards]
    [t.start() for t in ts]; [t.join() for t in ts]
    return results
