import random, struct, subprocess, sys
from decimal import Decimal, getcontext, ROUND_HALF_UP, ROUND_HALF_DOWN
getcontext().prec = 1200
rnd = random.Random(1)
def bits(x): return struct.unpack('<Q', struct.pack('<d', x))[0]
vals = []
for _ in range(20000):
    k = rnd.random()
    if k < .3: x = rnd.uniform(-1000, 1000)
    elif k < .5: x = round(rnd.uniform(-100, 100), rnd.randint(0, 12))
    elif k < .6: x = rnd.uniform(-1, 1) * 10**rnd.randint(-12, 3)
    elif k < .7: x = rnd.randint(-10**6, 10**6) + rnd.choice([.5, .25, .125, .05, .005, .0005, .99999, .999999999999, 0.49999999999])
    elif k < .8: x = float(rnd.randint(1, 10**15)) / 10**rnd.randint(0, 15)
    else: x = struct.unpack('<d', struct.pack('<Q', rnd.getrandbits(64)))[0]
    if x != x or x in (float('inf'), float('-inf')): continue
    vals.append(x)
jobs = [(x, p, s) for x in vals for p in range(21) for s in 'ec']
inp = ''.join('%x %d %s\n' % (bits(x), p, s) for x, p, s in jobs)
out = subprocess.run(['/root/scratch/mi/target/release/numfmt'], input=inp, capture_output=True, text=True).stdout.split('\n')
from collections import Counter
bad = Counter(); ex = {}
def intdigits(d):
    a = abs(d); 
    return 0 if a < 1 else len(str(int(a)))
for (x, p, s), o in zip(jobs, out):
    d = Decimal(x)
    if o == 'PANIC': kind = 'panic'
    else:
        kind = None
        if 'e' in o or 'E' in o: kind = 'exp'
        else:
            try: pv = Decimal(o if not o.startswith('.') and not o.startswith('-.') else o.replace('.', '0.', 1))
            except Exception: kind = 'unparse'
        if kind is None:
            frac = o.split('.')[1] if '.' in o else ''
            if frac.endswith('0') : kind = 'trailing0'
            elif len(frac) > p: kind = 'toomany(p=%d)' % p if p else 'toomany(p=0)'
            elif o in ('-0', '-') : kind = 'negzero'
            else:
                nd = len(frac)
                # acceptable digit counts
                cap = 16 - intdigits(d)
                cands = {min(p, max(cap,0)), min(p, max(cap+1,0)), min(p, max(cap-1, 0))}
                ok = False
                for dd in cands:
                    q = Decimal(1).scaleb(-dd)
                    for mode in (ROUND_HALF_UP, ROUND_HALF_DOWN):
                        e = d.quantize(q, rounding=mode)
                        if e == pv: ok = True
                if not ok:
                    dd = min(p, max(cap, 0)); q = Decimal(1).scaleb(-dd)
                    e = d.quantize(q, rounding=ROUND_HALF_UP)
                    ulps = abs(e - pv) / q
                    kind = ('misround(ulps=%s,sig=%d)' % (('%d' % ulps) if ulps < 10 else 'big', intdigits(d) + dd)) if abs(x) < 2**53 else (None if float(o if not o.startswith('.') and not o.startswith('-.') else o.replace('.', '0.', 1)) == x else 'huge-no-roundtrip')
        if kind is None and s == 'c' and (o.startswith('0.') or o.startswith('-0.')): kind = 'leadzero-c'
        if kind is None and s == 'e' and (o.startswith('.') or o.startswith('-.')): kind = 'noleadzero-e'
    if kind:
        bad[kind] += 1; ex.setdefault(kind, (repr(x), p, s, o))
print(len(jobs), 'jobs')
for k, v in bad.most_common(): print(v, k, ex[k])
