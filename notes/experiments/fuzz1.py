import json, random, sys, time, re
sys.path.insert(0, '/root/scratch/x')
from pool import run_jobs
c = [json.loads(l)['src'] for l in open('corpus.jsonl')]
rnd = random.Random(int(sys.argv[1]) if len(sys.argv) > 1 else 1)
N = int(sys.argv[2]) if len(sys.argv) > 2 else 20000
def depth_ok(s):
    d = 0; m = 0
    for ch in s:
        if ch in '{([': d += 1; m = max(m, d)
        elif ch in '})]': d = max(0, d - 1)
    return m <= 64 and len(s.encode('utf-8', 'replace')) <= 65536
toks = ['&', '*', '%', '#{', '}', '{', '(', ')', ':', ';', ',', '@', '$', '!', '-', '+', '/', '\\', '"', "'", ' ', '\n', 'NaN', 'infinity', '1e999', '9223372036854775807', '0', '-1', '1px', '%p', '&b', ':not(', '@for $i from ', ' through ', '@each $x in ', '@media ', '@if ', 'calc(', 'hsl(', 'rgb(', 'math.div(', '...', '[', ']', 'null', '==', ' and ', 'é', '\u0000', '', '/*', '*/', '//', 'url(', '@use "sass:math";', '@at-root ', '@include ', '@mixin m{', '@function f(){', '@return ', '!default', '!global', 'U+', '#', '.5', 'e5', '1/0', '--x:', '@extend ', '@import ']
def mutate(s):
    k = rnd.random()
    if k < .25 and len(s) > 2:
        i = rnd.randrange(len(s)); j = min(len(s), i + rnd.randint(1, 8)); return s[:i] + s[j:]
    if k < .55:
        i = rnd.randrange(len(s) + 1); return s[:i] + rnd.choice(toks) + s[i:]
    if k < .7:
        t = rnd.choice(c); i = rnd.randrange(len(s) + 1); j = rnd.randrange(len(t) + 1); return s[:i] + t[j:j + rnd.randint(1, 60)] + s[i:]
    if k < .8:
        i = rnd.randrange(len(s) + 1); j = min(len(s), i + rnd.randint(1, 30)); return s[:j] + s[i:j] * rnd.randint(1, 3) + s[j:]
    if k < .9:
        w = rnd.choice(['a{%s}', '@media x{%s}', 'a{b:{%s}}', '@if true{%s}', '@mixin q{%s} @include q;', 'a{b:(%s)}', 'a{b:"#{%s}"}', '*{%s}', '%%p{%s}', '@each $q in 1 2{%s}'])
        n = rnd.randint(1, 5); r = s
        for _ in range(n): r = w % r
        return r
    nums = re.findall(r'\d+', s)
    if nums:
        x = rnd.choice(nums); return s.replace(x, rnd.choice(['0', '999999999999999999999', '1e308', '-0', '0.0000000000000001', '255.5', x + '0' * 20]), 1)
    return s + rnd.choice(toks)
jobs = []
for i in range(N):
    s = rnd.choice(c)
    for _ in range(rnd.randint(1, 4)): s = mutate(s)
    if not depth_ok(s): continue
    jobs.append({'id': str(i), 'src': s, 'style': rnd.choice(['expanded', 'compressed']), 'precision': rnd.choice([0, 1, 5, 10, 20]), 'syntax': rnd.choice(['scss', 'scss', 'scss', 'css'])})
t = time.time(); res = run_jobs(jobs, timeout=10); print(len(res), 'in', round(time.time() - t, 1))
from collections import Counter
print(Counter(r['status'] for r in res.values()))
sig = Counter(); ex = {}
for j in jobs:
    r = res[j['id']]
    if r['status'] in ('panic', 'crash'):
        m = r['err']; loc = m.split(' @ ')[-1] if ' @ ' in m else ''
        key = (r['status'], re.sub(r'\d+', 'N', m.split(' @ ')[0])[:70], loc)
        sig[key] += 1
        if key not in ex or len(j['src']) < len(ex[key]['src']): ex[key] = j
for k, v in sig.most_common(): print(v, k, '\n      ', json.dumps(ex[k])[:300])
json.dump({str(k): ex[k] for k in ex}, open('fuzz_found_%s.json' % (sys.argv[1] if len(sys.argv) > 1 else 1), 'w'))
