# scratch: normalize CSS text for cross-style comparison
import re
def tokens(css):
    """yield (kind, text): kinds: str, comment, ws, num, ident, hash, other"""
    i = 0; n = len(css)
    while i < n:
        c = css[i]
        if c in '"\'':
            j = i + 1
            while j < n and css[j] != c:
                if css[j] == '\\': j += 1
                j += 1
            yield ('str', css[i:j+1]); i = j + 1
        elif css.startswith('/*', i):
            j = css.find('*/', i + 2); j = n if j < 0 else j + 2
            yield ('comment', css[i:j]); i = j
        elif c in ' \t\n\r\f':
            j = i
            while j < n and css[j] in ' \t\n\r\f': j += 1
            yield ('ws', css[i:j]); i = j
        else:
            m = re.compile(r'[+-]?(\d+\.?\d*|\.\d+)([eE][+-]?\d+)?').match(css, i)
            prev_ok = i == 0 or not (css[i-1].isalnum() or css[i-1] in '_-#\\')
            if m and prev_ok and m.group(0)[-1] != '.':
                yield ('num', m.group(0)); i = m.end(); continue
            m = re.compile(r'#[0-9a-zA-Z_-]+').match(css, i)
            if m: yield ('hash', m.group(0)); i = m.end(); continue
            m = re.compile(r'-?[a-zA-Z_\u0080-￿\\][\w\u0080-￿\\-]*|--[\w-]*').match(css, i)
            if m: yield ('ident', m.group(0)); i = m.end(); continue
            yield ('other', c); i += 1
def normnum(t):
    from decimal import Decimal
    try: d = Decimal(t)
    except Exception: return t
    s = format(d.normalize(), 'f')
    if s in ('-0',): s = '0'
    return s
def normalize(css):
    out = []
    for k, t in tokens(css.lstrip('﻿')):
        if k in ('ws', 'comment'): continue
        if k == 'num': t = normnum(t)
        out.append((k, t))
    # drop ';' before '}' and trailing ';'
    res = []
    for idx, (k, t) in enumerate(out):
        if t == ';' and (idx + 1 == len(out) or out[idx+1][1] == '}'): continue
        res.append((k, t))
    return res
