// scratch batch driver (exploration only)
thread_local!{ static LOC: std::cell::RefCell<String> = std::cell::RefCell::new(String::new()); }
use std::io::{self, BufRead, Write};
use rsass::output::{Format, Style};
use rsass::input::{FsContext, SourceFile, SourceName};
use serde_json::{json, Value};
fn run(job: &Value) -> Value {
    let src = job["src"].as_str().unwrap().as_bytes().to_vec();
    let style = if job["style"].as_str() == Some("compressed") { Style::Compressed } else { Style::Expanded };
    let precision = job["precision"].as_u64().unwrap_or(10) as usize;
    let css = job["syntax"].as_str() == Some("css");
    let value = job["syntax"].as_str() == Some("value");
    let format = Format { style, precision };
    let h = std::thread::Builder::new().stack_size(8 << 20).spawn(move || {
        let r = std::panic::catch_unwind(move || {
            let r = if value { rsass::compile_value(&src, format) } else {
                let f = if css { SourceFile::css_bytes(src, SourceName::root("-")) } else { SourceFile::scss_bytes(src, SourceName::root("-")) };
                FsContext::for_cwd().with_format(format).transform(f) };
            match r { Ok(b) => json!({"status":"ok","out": String::from_utf8_lossy(&b)}),
                      Err(e) => { let d = std::panic::catch_unwind(std::panic::AssertUnwindSafe(|| format!("{e}|{e:?}").len())); match d { Ok(_) => json!({"status":"err","err": format!("{e}")}), Err(_) => json!({"status":"panic","err":"in Display"}) } } }
        });
        r.map_err(|p| { let m = p.downcast_ref::<String>().cloned().or_else(|| p.downcast_ref::<&str>().map(|s| s.to_string())).unwrap_or_default(); format!("{} @ {}", m, LOC.with(|c| c.borrow().clone())) })
    }).unwrap();
    match h.join() { Ok(Ok(v)) => v, Ok(Err(m)) => json!({"status":"panic","err": m}), Err(_) => json!({"status":"panic","err":"join"}) }
}
fn main() {
    std::panic::set_hook(Box::new(|info| { let loc = info.location().map(|l| format!("{}:{}", l.file(), l.line())).unwrap_or_default(); LOC.with(|c| *c.borrow_mut() = loc); }));
    let stdin = io::stdin(); let out = io::stdout(); let mut out = out.lock();
    for line in stdin.lock().lines() {
        let job: Value = serde_json::from_str(&line.unwrap()).unwrap();
        writeln!(out, "B {}", job["id"]).unwrap(); out.flush().unwrap();
        let mut r = run(&job); r["id"] = job["id"].clone();
        writeln!(out, "R {}", r).unwrap(); out.flush().unwrap();
    }
}
