import json, random, sys, re, unicodedata
sys.path.insert(0, '/root/scratch/x')
from pool import run_jobs
rnd = random.Random(3)
POOL = list('abcxyzABC019 -_') + ['"', "'", '\\', '\n', '\t', '\x01', '\x7f', '\x0c', '\r', '#', '{', '}', '(', ')', ';', ':', ',', '/', '*', '@', '$', '!', '%', '&', '~', '`', 'é', 'ß', '中', ' ', '​', ' ', '', '', '�', '\U0001f600', '\U000f0000', '\U0010ffff', '̈', '­']
def lit(cps, q):
    out = []
    for idx, ch in enumerate(cps):
        o = ord(ch); k = rnd.random()
        must = ch in '\\\n\r\x0c' or ch == q or o < 0x20 or o == 0x7f or ch == '#'
        if must or k < .25:
            if ch in '\n\r\x0c' or o < 0x20 or o == 0x7f or k < .5 or ch in '0123456789abcdefABCDEF ':
                h = '%x' % o
                form = rnd.choice(['sp', 'pad6']) 
                if form == 'pad6': out.append('\\' + h.rjust(6, '0'))
                else: out.append('\\' + h + ' ')
            else: out.append('\\' + ch)
        else: out.append(ch)
    return q + ''.join(out) + q
def decode_css_string(tok):
    q = tok[0]; assert tok[-1] == q, tok
    s = tok[1:-1]; out = []; i = 0
    while i < len(s):
        c = s[i]
        if c != '\\': out.append(c); i += 1; continue
        i += 1
        if i >= len(s): break
        m = re.match(r'[0-9a-fA-F]{1,6}', s[i:])
        if m:
            v = int(m.group(0), 16); i += len(m.group(0))
            if i < len(s) and s[i] in ' \t\n': i += 1
            out.append(chr(v) if 0 < v <= 0x10ffff and not (0xd800 <= v <= 0xdfff) else '�')
        elif s[i] == '\n': i += 1
        else: out.append(s[i]); i += 1
    return ''.join(out)
cases = []
for i in range(3000):
    n = rnd.randint(0, 6); cps = [rnd.choice(POOL) for _ in range(n)]; q = rnd.choice('"\'')
    cases.append((cps, lit(cps, q)))
jobs = [{'id': str(i), 'src': '@use "sass:string"; a{b: %s; c: string.length(%s); d: string.quote(string.unquote(%s)) == %s}' % (l, l, l, l)} for i, (cps, l) in enumerate(cases)]
res = run_jobs(jobs)
from collections import Counter
cnt = Counter(); ex = {}
def note(k, v):
    cnt[k] += 1
    if k not in ex or len(str(v)) < len(str(ex[k])): ex[k] = v
for i, (cps, l) in enumerate(cases):
    r = res[str(i)]; want = ''.join(cps)
    if r['status'] != 'ok': note('status-' + r['status'] + ':' + r['err'].split('\n')[0][:40], l); continue
    out = r['out'].replace('@charset "UTF-8";\n', '')
    m = re.search(r'^  b: (.*);\n  c: (.*);\n  d: (.*);\n\}', out, re.M | re.S)
    if not m: note('unparsed-output', (l, out)); continue
    tok, ln, qq = m.groups()
    try: got = decode_css_string(tok)
    except Exception as e: note('bad-token', (l, tok)); continue
    bad_chars = None
    if got != want:
        diff = [c for c in set(want) ^ set(got)]
        cls = sorted({('ctrl' if ord(c) < 32 or ord(c) == 127 else 'nl' ) if ord(c) < 128 and not c.isprintable() else ('bs' if c == '\\' else 'other:' + unicodedata.name(c, hex(ord(c)))[:12]) for c in (diff or ['?'])})
        note('content-differs:' + ','.join(cls)[:50], (l, tok, [hex(ord(c)) for c in want], [hex(ord(c)) for c in got]))
    if ln != str(len(want)): note('length-wrong', (l, ln, len(want)))
    if qq != 'true': note('quote-unquote-not-identity', (l,))
    cnt['n'] += 1
print(cnt)
for k, v in sorted(ex.items()): print(k, '::', json.dumps(v)[:230])
