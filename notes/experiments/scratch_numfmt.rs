use std::io::{self, BufRead, Write};
use rsass::output::{Format, Style};
use rsass::value::Number;
fn main() {
    let stdin = io::stdin(); let out = io::stdout(); let mut out = io::BufWriter::new(out.lock());
    std::panic::set_hook(Box::new(|_| {}));
    for line in stdin.lock().lines() {
        let line = line.unwrap(); let mut it = line.split(' ');
        let bits = u64::from_str_radix(it.next().unwrap(), 16).unwrap();
        let prec: usize = it.next().unwrap().parse().unwrap();
        let style = if it.next().unwrap() == "c" { Style::Compressed } else { Style::Expanded };
        let x = f64::from_bits(bits);
        let r = std::panic::catch_unwind(|| Number::from(x).format(Format{style, precision: prec}).to_string());
        match r { Ok(s) => writeln!(out, "{}", s).unwrap(), Err(_) => writeln!(out, "PANIC").unwrap() }
    }
}
