//! Self-contained concurrent workload: the target of the sanitizer
//! lanes (Miri many-seeds, ThreadSanitizer, valgrind).  No I/O besides
//! stdout; the oracle is built in: every thread's outputs must equal
//! the single-threaded reference, unique ids must be pairwise distinct.
//!
//! usage: conc <threads> <rounds> [yield_p]
use rsass::input::{Context, Loader, LoadError, SourceFile, SourceName};
use rsass::output::{Format, Style};
use std::collections::{BTreeMap, BTreeSet};
use std::sync::{Arc, Barrier};

#[derive(Debug, Clone)]
struct Mem(Arc<BTreeMap<&'static str, &'static str>>);
impl Loader for Mem {
    type File = &'static [u8];
    fn find_file(&self, url: &str) -> Result<Option<Self::File>, LoadError> {
        Ok(self.0.get(url).map(|s| s.as_bytes()))
    }
}

const INPUTS: &[&str] = &[
    "@use 'sass:math'; a { b: math.div(10px, 4); c: math.$pi; d: math.max(1px, 2px) }",
    "@use 'sass:string'; @use 'sass:list'; a { b: string.to-upper-case('x' + list.nth(a b c, 2)); c: string.length('åäö') }",
    "@use 'lib'; @use 'sass:map'; a { b: lib.f(2); c: map.get((k: v), k); @include lib.m { d: e } }",
    "@mixin m($a: 1) { x: $a; @content } a { @include m(2) { y: z } } @media print { b { c: d } }",
    "@use 'sass:color'; @use 'sass:selector'; a { b: color.adjust(#123, $red: 10); c: selector.nest('.a', '&.b'); d: lighten(red, 10%) }",
    "@import 'imp'; a { b: $v + 1 }",
];

fn files() -> Mem {
    let mut m = BTreeMap::new();
    m.insert("lib.scss", "@function f($x) { @return $x * 2 } @mixin m { q { @content } } l { i: b }");
    m.insert("_imp.scss", "$v: 41; i { m: p }");
    Mem(Arc::new(m))
}

fn compile(src: &str, compressed: bool) -> String {
    let format = Format {
        style: if compressed { Style::Compressed } else { Style::Expanded },
        precision: 10,
    };
    let f = SourceFile::scss_bytes(src, SourceName::root("main.scss"));
    match Context::for_loader(files()).with_format(format).transform(f) {
        Ok(b) => String::from_utf8_lossy(&b).into_owned(),
        Err(e) => format!("ERR {e}"),
    }
}

fn ids(n: usize) -> Vec<String> {
    let src = format!(
        "@use 'sass:string'; a {{ @for $i from 1 through {n} {{ i: string.unique-id() }} }}"
    );
    compile(&src, true)
        .split("i:")
        .skip(1)
        .map(|s| s.trim_end_matches([';', '}', '\n']).to_string())
        .collect()
}

fn main() {
    let args: Vec<String> = std::env::args().collect();
    let threads: usize = args.get(1).and_then(|s| s.parse().ok()).unwrap_or(3);
    let rounds: usize = args.get(2).and_then(|s| s.parse().ok()).unwrap_or(1);
    let yp: u32 = args.get(3).and_then(|s| s.parse().ok()).unwrap_or(0);
    let warm = args.get(4).map(String::as_str) == Some("warm");
    rsass::verif::set_yield_probability(yp);
    // With "warm" the reference is computed first (built-ins initialised
    // single-threaded); without it the threads race on initialisation
    // and the reference is computed afterwards.
    let reference = |_: ()| -> Vec<String> {
        INPUTS
            .iter()
            .flat_map(|s| [compile(s, false), compile(s, true)])
            .collect()
    };
    let pre = if warm { Some(reference(())) } else { None };
    let barrier = Arc::new(Barrier::new(threads));
    let handles: Vec<_> = (0..threads)
        .map(|t| {
            let barrier = barrier.clone();
            std::thread::spawn(move || {
                rsass::verif::seed_thread(t as u64 * 104_729 + 17);
                barrier.wait();
                let mut outs = Vec::new();
                let mut myids = Vec::new();
                for r in 0..rounds {
                    for k in 0..INPUTS.len() {
                        // different threads start at different inputs
                        let i = (k + t + r) % INPUTS.len();
                        outs.push((i, false, compile(INPUTS[i], false)));
                        outs.push((i, true, compile(INPUTS[i], true)));
                    }
                    myids.extend(ids(8));
                }
                (outs, myids)
            })
        })
        .collect();
    let mut all_ids = Vec::new();
    let mut results = Vec::new();
    for h in handles {
        let (outs, myids) = h.join().expect("worker thread panicked");
        results.push(outs);
        all_ids.extend(myids);
    }
    let reference = pre.unwrap_or_else(|| reference(()));
    let mut bad = 0;
    let mut compared = 0;
    for outs in &results {
        for (i, c, o) in outs {
            compared += 1;
            if &reference[i * 2 + usize::from(*c)] != o {
                bad += 1;
                println!("MISMATCH input={i} compressed={c} got={o:?}");
            }
        }
    }
    for r in &reference {
        if r.starts_with("ERR") {
            bad += 1;
            println!("REFERENCE-ERROR {r}");
        }
    }
    let distinct: BTreeSet<_> = all_ids.iter().collect();
    if distinct.len() != all_ids.len() || all_ids.len() != threads * rounds * 8 {
        bad += 1;
        println!(
            "IDS ids={} distinct={} expected={}",
            all_ids.len(),
            distinct.len(),
            threads * rounds * 8
        );
    }
    println!(
        "CONC threads={threads} rounds={rounds} compared={compared} ids={} distinct_ids={} bad={bad}",
        all_ids.len(),
        distinct.len()
    );
    std::process::exit(i32::from(bad != 0));
}
