//! In-memory loader with a call log and a fault plan.
use rsass::input::{LoadError, Loader};
use std::collections::BTreeMap;
use std::io::{self, Read};
use std::sync::{Arc, Mutex};

#[derive(Default, Debug)]
pub struct Log {
    /// (kind, name, outcome)
    pub calls: Vec<(String, String, String)>,
    pub finds: usize,
    pub reads: usize,
    pub faults_hit: usize,
}

#[derive(Clone, Debug)]
pub struct MemLoader {
    files: Arc<BTreeMap<String, Vec<u8>>>,
    pub log: Arc<Mutex<Log>>,
    fail_find: Arc<Vec<usize>>,
    fail_read: Arc<Vec<usize>>,
    /// Resolve `.` and `..` segments like a file system does.
    normalize: bool,
}

pub struct MemFile {
    name: String,
    data: io::Cursor<Vec<u8>>,
    log: Arc<Mutex<Log>>,
    fail_read: Arc<Vec<usize>>,
    started: bool,
    failed: bool,
}

impl Read for MemFile {
    fn read(&mut self, buf: &mut [u8]) -> io::Result<usize> {
        if !self.started {
            self.started = true;
            let mut log = self.log.lock().unwrap();
            let idx = log.reads;
            log.reads += 1;
            if self.fail_read.contains(&idx) {
                log.faults_hit += 1;
                log.calls.push(("read".into(), self.name.clone(), "fault".into()));
                self.failed = true;
            } else {
                log.calls.push(("read".into(), self.name.clone(), "ok".into()));
            }
        }
        if self.failed {
            return Err(io::Error::other("injected read fault"));
        }
        self.data.read(buf)
    }
}

pub fn normalize_path(url: &str) -> Option<String> {
    let mut out: Vec<&str> = Vec::new();
    for seg in url.split('/') {
        match seg {
            "" | "." => {}
            ".." => {
                out.pop()?;
            }
            s => out.push(s),
        }
    }
    Some(out.join("/"))
}

impl MemLoader {
    pub fn new(
        files: BTreeMap<String, Vec<u8>>,
        fail_find: Vec<usize>,
        fail_read: Vec<usize>,
        normalize: bool,
    ) -> Self {
        Self {
            files: Arc::new(files),
            log: Default::default(),
            fail_find: Arc::new(fail_find),
            fail_read: Arc::new(fail_read),
            normalize,
        }
    }
}

impl Loader for MemLoader {
    type File = MemFile;
    fn find_file(&self, url: &str) -> Result<Option<MemFile>, LoadError> {
        let mut log = self.log.lock().unwrap();
        let idx = log.finds;
        log.finds += 1;
        if self.fail_find.contains(&idx) {
            log.faults_hit += 1;
            log.calls.push(("find".into(), url.into(), "fault".into()));
            return Err(LoadError::Input(
                url.into(),
                io::Error::other("injected lookup fault"),
            ));
        }
        let key = if self.normalize {
            normalize_path(url)
        } else {
            Some(url.to_string())
        };
        let found = key.and_then(|k| self.files.get(&k).cloned());
        log.calls.push((
            "find".into(),
            url.into(),
            if found.is_some() { "found" } else { "none" }.into(),
        ));
        Ok(found.map(|data| MemFile {
            name: url.into(),
            data: io::Cursor::new(data),
            log: self.log.clone(),
            fail_read: self.fail_read.clone(),
            started: false,
            failed: false,
        }))
    }
}
