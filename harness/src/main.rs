//! Line-oriented JSON job server around the real rsass library.
//!
//! One JSON object per input line, one `R <json>` line per answer,
//! preceded by `B <id>` (flushed) so that the parent can attribute a
//! process death to the job in flight.
mod memloader;

use memloader::MemLoader;
use rsass::input::{Context, FsContext, SourceFile, SourceName};
use rsass::output::{Format, Style};
use serde_json::{Value, json};
use std::cell::RefCell;
use std::collections::BTreeMap;
use std::io::{self, BufRead, Write};
use std::panic::{AssertUnwindSafe, catch_unwind};
use std::sync::{Arc, Barrier};

thread_local! {
    static PANIC: RefCell<Option<(String, String, String)>> = const { RefCell::new(None) };
}

fn hex_decode(s: &str) -> Vec<u8> {
    let b = s.as_bytes();
    (0..b.len() / 2)
        .map(|i| {
            let h = (b[2 * i] as char).to_digit(16).unwrap_or(0) as u8;
            let l = (b[2 * i + 1] as char).to_digit(16).unwrap_or(0) as u8;
            (h << 4) | l
        })
        .collect()
}
fn hex_encode(b: &[u8]) -> String {
    let mut s = String::with_capacity(b.len() * 2);
    for x in b {
        s.push_str(&format!("{x:02x}"));
    }
    s
}

fn bytes_of(v: &Value) -> Vec<u8> {
    match v {
        Value::String(s) => s.as_bytes().to_vec(),
        Value::Object(o) => o
            .get("hex")
            .and_then(Value::as_str)
            .map(hex_decode)
            .unwrap_or_default(),
        _ => vec![],
    }
}

fn put_bytes(o: &mut serde_json::Map<String, Value>, key: &str, b: &[u8]) {
    match std::str::from_utf8(b) {
        Ok(s) => {
            o.insert(key.into(), json!(s));
        }
        Err(_) => {
            o.insert(key.into(), json!(String::from_utf8_lossy(b)));
            o.insert(format!("{key}_hex"), json!(hex_encode(b)));
        }
    }
}

fn format_of(job: &Value) -> Format {
    let style = match job["style"].as_str() {
        Some("compressed") => Style::Compressed,
        Some("introspection") => Style::Introspection,
        _ => Style::Expanded,
    };
    let precision = job["precision"].as_u64().unwrap_or(10) as usize;
    Format { style, precision }
}

/// Digest of every built-in module's variables and function names.
fn builtin_fingerprint() -> String {
    let mut h: u64 = 0xcbf2_9ce4_8422_2325;
    let mut feed = |s: &str| {
        for b in s.bytes() {
            h ^= u64::from(b);
            h = h.wrapping_mul(0x0100_0000_01b3);
        }
    };
    for m in [
        "sass:color",
        "sass:list",
        "sass:map",
        "sass:math",
        "sass:meta",
        "sass:selector",
        "sass:string",
    ] {
        if let Some(s) = rsass::sass::get_global_module(m) {
            feed(m);
            feed(&s.variables_map().format(Format::introspect()).to_string());
            feed(&s.functions_map().format(Format::introspect()).to_string());
        }
    }
    format!("{h:016x}")
}

fn events_json() -> Value {
    Value::Array(
        rsass::verif::take_events()
            .into_iter()
            .map(|e| json!([e.seq, e.kind, e.a, e.b]))
            .collect(),
    )
}

/// Run one compile job on the current thread (under catch_unwind).
fn compile_inner(job: &Value) -> Value {
    let format = format_of(job);
    let api = job["api"].as_str().unwrap_or("mem");
    let css = job["syntax"].as_str() == Some("css");
    let entry = job["entry"].as_str().unwrap_or("-").to_string();
    let _ = rsass::verif::take_events();
    PANIC.with(|p| p.borrow_mut().take());
    let mut loader_log = None;
    let run = || -> Result<Vec<u8>, rsass::Error> {
        match api {
            "value" => rsass::compile_value(&bytes_of(&job["src"]), format),
            "compile_scss" => rsass::compile_scss(&bytes_of(&job["src"]), format),
            "cwd" => {
                let src = bytes_of(&job["src"]);
                let f = if css {
                    SourceFile::css_bytes(src, SourceName::root("-"))
                } else {
                    SourceFile::scss_bytes(src, SourceName::root("-"))
                };
                FsContext::for_cwd().with_format(format).transform(f)
            }
            "path" => rsass::compile_scss_path(
                job["path"].as_str().unwrap_or("").as_ref(),
                format,
            ),
            "fs" => {
                // What the CLI does: for_path + push_path.
                let (mut ctx, source) = FsContext::for_path(
                    job["path"].as_str().unwrap_or("").as_ref(),
                )?;
                if let Some(lp) = job["load_paths"].as_array() {
                    for p in lp {
                        ctx.push_path(p.as_str().unwrap_or("").as_ref());
                    }
                }
                ctx.with_format(format).transform(source)
            }
            _ => {
                let mut files = BTreeMap::new();
                if let Some(o) = job["files"].as_object() {
                    for (k, v) in o {
                        files.insert(k.clone(), bytes_of(v));
                    }
                }
                let ff = |k: &str| -> Vec<usize> {
                    job["fault"][k]
                        .as_array()
                        .map(|a| {
                            a.iter()
                                .filter_map(|v| v.as_u64().map(|x| x as usize))
                                .collect()
                        })
                        .unwrap_or_default()
                };
                let src = if job.get("src").is_some() && !job["src"].is_null() {
                    bytes_of(&job["src"])
                } else {
                    files.get(&entry).cloned().unwrap_or_default()
                };
                let loader = MemLoader::new(
                    files,
                    ff("find"),
                    ff("read"),
                    job["normalize"].as_bool().unwrap_or(true),
                );
                loader_log = Some(loader.log.clone());
                let name = SourceName::root(entry.clone());
                let f = if css {
                    SourceFile::css_bytes(src, name)
                } else {
                    SourceFile::scss_bytes(src, name)
                };
                Context::for_loader(loader).with_format(format).transform(f)
            }
        }
    };
    let r = catch_unwind(AssertUnwindSafe(run));
    let mut o = serde_json::Map::new();
    match r {
        Ok(Ok(b)) => {
            o.insert("status".into(), json!("ok"));
            put_bytes(&mut o, "out", &b);
        }
        Ok(Err(e)) => {
            o.insert("status".into(), json!("err"));
            let disp = catch_unwind(AssertUnwindSafe(|| format!("{e}")));
            let dbg = catch_unwind(AssertUnwindSafe(|| format!("{e:?}").len()));
            match disp {
                Ok(s) => {
                    o.insert("err".into(), json!(s));
                }
                Err(_) => {
                    o.insert("status".into(), json!("panic"));
                    o.insert("where".into(), json!("display"));
                }
            }
            if dbg.is_err() {
                o.insert("status".into(), json!("panic"));
                o.insert("where".into(), json!("debug"));
            }
            let kind = match &e {
                rsass::Error::Input(_) => "input",
                rsass::Error::IoError(_) => "io",
                rsass::Error::BadCall(..) => "badcall",
                rsass::Error::ImportLoop(..) => "loop",
                rsass::Error::ParseError(_) => "parse",
                rsass::Error::Invalid(..) => "invalid",
                rsass::Error::S(_) => "s",
            };
            o.insert("kind".into(), json!(kind));
        }
        Err(_) => {
            o.insert("status".into(), json!("panic"));
            o.insert("where".into(), json!("compile"));
        }
    }
    if o["status"] == "panic" {
        let p = PANIC.with(|p| p.borrow_mut().take());
        if let Some((msg, loc, frame)) = p {
            o.insert("panic_msg".into(), json!(msg));
            o.insert("panic_loc".into(), json!(loc));
            o.insert("panic_fn".into(), json!(frame));
        }
    }
    o.insert("events".into(), events_json());
    if let Some(log) = loader_log {
        let log = log.lock().unwrap();
        o.insert(
            "calls".into(),
            Value::Array(
                log.calls.iter().map(|(k, n, r)| json!([k, n, r])).collect(),
            ),
        );
        o.insert("finds".into(), json!(log.finds));
        o.insert("reads".into(), json!(log.reads));
        o.insert("faults_hit".into(), json!(log.faults_hit));
    }
    if job["fp"].as_bool().unwrap_or(false) {
        o.insert("fp".into(), json!(builtin_fingerprint()));
    }
    Value::Object(o)
}

const STACK: usize = 8 << 20;

type JobChan = (
    std::sync::mpsc::Sender<Value>,
    std::sync::mpsc::Receiver<Value>,
);
static WORKER: std::sync::Mutex<Option<JobChan>> = std::sync::Mutex::new(None);

fn spawn_worker() -> Option<JobChan> {
    let (jtx, jrx) = std::sync::mpsc::channel::<Value>();
    let (rtx, rrx) = std::sync::mpsc::channel::<Value>();
    std::thread::Builder::new()
        .stack_size(STACK)
        .spawn(move || {
            for j in jrx {
                if rtx.send(compile_inner(&j)).is_err() {
                    break;
                }
            }
        })
        .ok()?;
    Some((jtx, rrx))
}

/// Run a compile job on the job thread (8 MiB stack; the thread is kept
/// between jobs, as in a program that compiles many files, and replaced
/// if it ever dies).
fn compile(job: &Value) -> Value {
    let mut w = WORKER.lock().unwrap();
    if w.is_none() {
        *w = spawn_worker();
    }
    let Some((tx, rx)) = w.as_ref() else {
        return json!({"status": "harness-error", "err": "cannot spawn job thread"});
    };
    if tx.send(job.clone()).is_err() {
        *w = None;
        return json!({"status": "harness-error", "err": "job thread gone"});
    }
    match rx.recv() {
        Ok(v) => v,
        Err(_) => {
            *w = None;
            json!({"status": "panic", "where": "join"})
        }
    }
}

fn numfmt(job: &Value) -> Value {
    // cases: [[bits(u64 as decimal string), precision, compressed(bool)], ...]
    let mut out = Vec::new();
    if let Some(cases) = job["cases"].as_array() {
        for c in cases {
            let bits: u64 =
                c[0].as_str().and_then(|s| s.parse().ok()).unwrap_or(0);
            let x = f64::from_bits(bits);
            let format = Format {
                style: if c[2].as_bool().unwrap_or(false) {
                    Style::Compressed
                } else {
                    Style::Expanded
                },
                precision: c[1].as_u64().unwrap_or(10) as usize,
            };
            let r = catch_unwind(AssertUnwindSafe(|| {
                rsass::value::Number::from(x).format(format).to_string()
            }));
            out.push(match r {
                Ok(s) => json!(s),
                Err(_) => {
                    let p = PANIC.with(|p| p.borrow_mut().take());
                    json!({"panic": p.map(|p| format!("{} @ {} in {}", p.0, p.1, p.2))})
                }
            });
        }
    }
    json!({"status": "ok", "res": out})
}

/// T threads, each running a list of compile jobs; start barrier;
/// optional yield injection.
fn history(job: &Value) -> Value {
    let threads: Vec<Vec<Value>> = job["threads"]
        .as_array()
        .map(|a| {
            a.iter()
                .map(|t| t.as_array().cloned().unwrap_or_default())
                .collect()
        })
        .unwrap_or_default();
    let yp = job["yield_p"].as_u64().unwrap_or(0) as u32;
    let seed = job["seed"].as_u64().unwrap_or(1);
    rsass::verif::set_yield_probability(yp);
    let barrier = Arc::new(Barrier::new(threads.len().max(1)));
    let mut handles = Vec::new();
    for (i, jobs) in threads.into_iter().enumerate() {
        let barrier = barrier.clone();
        let h = std::thread::Builder::new()
            .stack_size(STACK)
            .spawn(move || {
                rsass::verif::seed_thread(
                    seed.wrapping_mul(0x9e37_79b9_7f4a_7c15)
                        .wrapping_add(i as u64 * 7919 + 1),
                );
                barrier.wait();
                jobs.iter().map(compile_inner).collect::<Vec<_>>()
            });
        handles.push(h);
    }
    let mut res = Vec::new();
    for h in handles {
        match h.map(std::thread::JoinHandle::join) {
            Ok(Ok(v)) => res.push(Value::Array(v)),
            _ => res.push(json!({"status": "panic", "where": "join"})),
        }
    }
    rsass::verif::set_yield_probability(0);
    json!({"status": "ok", "threads": res, "fp": builtin_fingerprint()})
}

fn run(job: &Value) -> Value {
    match job["op"].as_str().unwrap_or("compile") {
        "numfmt" => numfmt(job),
        "history" => history(job),
        "fingerprint" => json!({"status": "ok", "fp": builtin_fingerprint()}),
        "chdir" => {
            let r = std::env::set_current_dir(job["dir"].as_str().unwrap_or("."));
            json!({"status": if r.is_ok() { "ok" } else { "harness-error" }})
        }
        _ => compile(job),
    }
}

fn main() {
    std::panic::set_hook(Box::new(|info| {
        let loc = info
            .location()
            .map(|l| format!("{}:{}", l.file(), l.line()))
            .unwrap_or_default();
        let msg = info
            .payload()
            .downcast_ref::<String>()
            .cloned()
            .or_else(|| {
                info.payload().downcast_ref::<&str>().map(|s| (*s).to_string())
            })
            .unwrap_or_default();
        // First frame inside rsass (function path without the hash).
        let bt = std::backtrace::Backtrace::force_capture().to_string();
        if std::env::var_os("VERIF_BT").is_some() {
            eprintln!("{bt}");
        }
        let frame = bt
            .lines()
            .filter_map(|l| l.trim().split_once(": ").map(|x| x.1))
            .find(|f| {
                (f.starts_with("rsass::") || f.starts_with("<rsass::"))
                    && !f.contains("verif")
            })
            .unwrap_or("")
            .to_string();
        let _ = PANIC.try_with(|p| {
            if let Ok(mut p) = p.try_borrow_mut() {
                if p.is_none() {
                    *p = Some((msg, loc, frame));
                }
            }
        });
    }));
    let stdin = io::stdin();
    let out = io::stdout();
    let mut out = out.lock();
    for line in stdin.lock().lines() {
        let Ok(line) = line else { break };
        if line.trim().is_empty() {
            continue;
        }
        let job: Value = match serde_json::from_str(&line) {
            Ok(j) => j,
            Err(e) => {
                let _ = writeln!(out, "R {}", json!({"status": "harness-error", "err": e.to_string()}));
                let _ = out.flush();
                continue;
            }
        };
        let _ = writeln!(out, "B {}", job["id"]);
        let _ = out.flush();
        let mut r = run(&job);
        r["id"] = job["id"].clone();
        let _ = writeln!(out, "R {r}");
        let _ = out.flush();
    }
}
